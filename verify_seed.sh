#!/bin/bash
# verify_seed.sh <ID> <src-dir-with-patch.diff-and-demo/> "<demo command>" :
# confirms a seeded change on a FRESH scratch worktree of /repo HEAD (no git stash: the stash is shared
# between worktrees): demo passes on the clean tree, patch applies, tree builds, demo fails with the patch,
# the library's own suite passes with the patch. The worktree is removed afterwards.
ID=$1; SRC=$2; DEMO=$3; WT=/tmp/vs-$ID
export GOFLAGS=-mod=mod GOPROXY=off
git -C /repo worktree remove --force $WT >/dev/null 2>&1; rm -rf $WT
git -C /repo worktree add --detach $WT >/dev/null 2>&1 || { echo "[$ID] worktree failed"; exit 9; }
cd $WT || exit 9
# place the demo files (paths relative to the repository root, as stored under demo/)
(cd $SRC/demo && find . -type f ! -name RUN.txt | while read f; do mkdir -p "$WT/$(dirname "$f")"; cp "$f" "$WT/$f"; done)
bash -c "$DEMO" > /tmp/vs-$ID.demo_without.log 2>&1; wo=$?
git apply $SRC/patch.diff || { echo "[$ID] PATCH DOES NOT APPLY"; exit 1; }
go build ./... || { echo "[$ID] BUILD FAILED"; exit 1; }
bash -c "$DEMO" > /tmp/vs-$ID.demo_with.log 2>&1; w=$?
pkgs=$(go list ./... | grep -v seeded_demo)
go test -vet=off -count=1 -timeout 25m $pkgs > /tmp/vs-$ID.suite.log 2>&1; s=$?
if [ $s -ne 0 ]; then # timing-sensitive tests on a loaded machine: re-run the failing packages alone once
  fp=$(grep -E '^FAIL\s' /tmp/vs-$ID.suite.log | awk '{print $2}' | sort -u)
  s=0; for p in $fp; do go test -vet=off -count=1 -timeout 25m $p >> /tmp/vs-$ID.suite.log 2>&1 || s=1; done
  echo "[$ID] suite: first run had failures in: $fp ; re-run alone exit=$s"
fi
echo "[$ID] demo without change exit=$wo (want 0), with change exit=$w (want !=0), suite with change exit=$s (want 0)"
cd /; git -C /repo worktree remove --force $WT >/dev/null 2>&1; rm -rf $WT
